//! mmv — worker binary of the mimium-rs property-testing harness.
//! Driven by /verif/check (python).  Subcommands: plan, chunk, one, shrink, distinct, rule.

use mmv::{engine, props, runners};

use engine::case::*;
use engine::worker;
use serde_json::{json, Value};
use std::collections::HashMap;

fn args_map(args: &[String]) -> (HashMap<String, String>, Vec<String>) {
    let mut m = HashMap::new();
    let mut pos = vec![];
    let mut i = 0;
    while i < args.len() {
        if let Some(k) = args[i].strip_prefix("--") {
            if i + 1 < args.len() && !args[i + 1].starts_with("--") {
                m.insert(k.to_string(), args[i + 1].clone());
                i += 2;
            } else {
                m.insert(k.to_string(), "1".to_string());
                i += 1;
            }
        } else {
            pos.push(args[i].clone());
            i += 1;
        }
    }
    (m, pos)
}

fn cx_from(m: &HashMap<String, String>) -> Cx {
    Cx {
        tier: Tier::parse(m.get("tier").map(|s| s.as_str()).unwrap_or("quick")),
        seed: m.get("seed").and_then(|s| s.parse().ok()).unwrap_or(0),
        render: m.contains_key("render"),
        strict: m.contains_key("strict"),
        no_exclude: m.get("no-exclude").map(|s| s.split(',').map(|x| x.to_string()).collect()).unwrap_or_default(),
        dry: m.contains_key("dry"),
    }
}

fn silence_stderr() {
    if std::env::var_os("MMV_KEEP_STDERR").is_some() {
        return;
    }
    // the code under test prints recovery noise with eprintln!; keep worker stderr clean
    unsafe {
        let fd = libc::open(c"/dev/null".as_ptr(), libc::O_WRONLY);
        if fd >= 0 {
            libc::dup2(fd, 2);
            libc::close(fd);
        }
    }
}

fn main() {
    let argv: Vec<String> = std::env::args().collect();
    if argv.len() < 2 {
        eprintln!("usage: mmv <plan|chunk|one|shrink|distinct|rule> ...");
        std::process::exit(2);
    }
    let cmd = argv[1].as_str();
    let (mut m, mut pos) = args_map(&argv[2..]);
    // `use`/`include` of sources compiled without a file path resolve against the working
    // directory (and its ancestors' lib/): pin it to the repository root so that results do
    // not depend on where the driver was started. Path arguments are made absolute first.
    if let Ok(cwd) = std::env::current_dir() {
        let abs = |v: &mut String| {
            if !v.is_empty() && std::path::Path::new(v.as_str()).is_relative() {
                *v = cwd.join(v.as_str()).to_string_lossy().to_string();
            }
        };
        for k in ["replay", "out", "journal", "hashes", "spill", "history", "file"] {
            if let Some(v) = m.get_mut(k) {
                abs(v);
            }
        }
        if matches!(cmd, "distinct" | "artefacts" | "diag" | "together" | "runvm") {
            pos.iter_mut().for_each(abs);
        }
    }
    let _ = std::env::set_current_dir("/repo");
    if cmd == "distinct" {
        // count distinct u64 values over binary files
        let mut all: Vec<u64> = vec![];
        for p in &pos {
            if let Ok(b) = std::fs::read(p) {
                for c in b.chunks_exact(8) {
                    all.push(u64::from_le_bytes(c.try_into().unwrap()));
                }
            }
        }
        let total = all.len();
        all.sort_unstable();
        all.dedup();
        println!("{}", json!({"total": total, "distinct": all.len()}));
        return;
    }
    if cmd == "artefacts" {
        // fresh-process artefact digest of a source file (C15, C19)
        silence_stderr();
        engine::panics::install_hook();
        let src = std::fs::read_to_string(&pos[0]).expect("read source");
        // --history <json file with a list of source texts>: compiled first, in this process
        if let Some(h) = m.get("history") {
            let hs: Vec<String> = serde_json::from_slice(&std::fs::read(h).expect("read history")).expect("history json");
            for t in &hs {
                let _ = runners::artefacts::compile_artefacts(t, false, false);
            }
        }
        let a = runners::artefacts::compile_artefacts(&src, m.contains_key("sched"), true);
        let mut out = json!({"digest": if m.contains_key("diags") { a.digest_with_diagnostics() } else { a.digest() }, "texts": a.texts, "diagnostics": a.diagnostics});
        if m.contains_key("twice") {
            let b = runners::artefacts::compile_artefacts(&src, m.contains_key("sched"), true);
            out["digest2"] = json!(b.digest());
            out["texts2"] = json!(b.texts);
        }
        println!("\nMMVRESULT {out}");
        return;
    }
    if cmd == "runvm" {
        // C16: the VM outputs of a source file in this fresh process
        silence_stderr();
        engine::panics::install_hook();
        let src = std::fs::read_to_string(&pos[0]).expect("read source");
        let n: u64 = m.get("n").and_then(|s| s.parse().ok()).unwrap_or(4);
        let inp = runners::exec::Inputs { kind: m.get("kind").and_then(|s| s.parse().ok()).unwrap_or(1), scale: m.get("scale").and_then(|s| s.parse().ok()).unwrap_or(1.0) };
        let o = runners::exec::RunOpts { n, sched: false, want_state: false, want_counts: false, want_trace: false };
        let out = match runners::exec::run_vm(&src, &inp, &o) {
            runners::exec::Exec::Ran(a) => json!({"ok": a.samples}),
            runners::exec::Exec::Rejected(d) => json!({"err": format!("rejected: {}", d.first().map(|x| x.message.clone()).unwrap_or_default())}),
            runners::exec::Exec::NoIo => json!({"err": "no-io"}),
            runners::exec::Exec::Panic(st, p) => json!({"err": format!("panic {st}: {}", p.signature())}),
            runners::exec::Exec::Error(st, e) => json!({"err": format!("error {st}: {e}")}),
        };
        println!("\nMMVRESULT {out}");
        return;
    }
    if cmd == "together" {
        // C19: start all jobs of a json list together on threads in this fresh process
        silence_stderr();
        engine::panics::install_hook();
        let payload: Value = serde_json::from_slice(&std::fs::read(&pos[0]).expect("read jobs")).expect("jobs json");
        let js: Vec<Value> = payload.get("jobs").unwrap_or(&payload).as_array().cloned().unwrap_or_default();
        let jobs: Vec<(String, bool)> = js.iter().map(|j| (j["text"].as_str().unwrap_or("").to_string(), j["sched"].as_bool().unwrap_or(false))).collect();
        let enc = |r: &[Result<String, String>]| -> Vec<Value> { r.iter().map(|x| match x { Ok(d) => json!({"ok": d}), Err(e) => json!({"err": e}) }).collect() };
        if let Some(plan) = payload.get("plan").and_then(|p| p.as_array()) {
            // harness-owned schedule: (segment length, thread pick) pairs
            let plan: Vec<(u64, u64)> = plan.iter().map(|e| (e[0].as_u64().unwrap_or(1), e[1].as_u64().unwrap_or(0))).collect();
            let (r, st) = props::c19::together_planned_here(&jobs, plan);
            println!("\nMMVRESULT {}", json!({"results": enc(&r), "stats": {"points": st.points, "switches": st.switches, "forced": st.forced, "per_thread": st.per_thread}}));
            return;
        }
        let r = props::c19::together_here(&jobs);
        println!("\nMMVRESULT {}", Value::Array(enc(&r)));
        return;
    }
    if cmd == "fuzzcase" {
        // a cargo-fuzz artefact (raw fuzzer input) turned into a replay description + verdict
        silence_stderr();
        engine::panics::install_hook();
        let tname = m.get("target").expect("--target").clone();
        let data = std::fs::read(m.get("file").expect("--file")).expect("read fuzzer input");
        let out = match mmv::fuzzentry::run(&tname, &data, m.contains_key("strict"), true) {
            None => json!({"outcome": "undecodable"}),
            Some(o) => {
                let mut v: Value = worker::result_json(&o.result);
                v["replay"] = o.replay;
                v
            }
        };
        println!("\nMMVRESULT {out}");
        return;
    }
    if cmd == "fuzztargets" {
        println!("{}", json!(mmv::fuzzentry::TARGETS.iter().map(|t| json!({"target": t.0, "property": t.1, "kind": format!("{:?}", t.2).to_lowercase(), "space": t.3})).collect::<Vec<_>>()));
        return;
    }
    if cmd == "diag" {
        // debugging aid: print front-end diagnostics and VM/WASM outputs of a source file
        let src = std::fs::read_to_string(&pos[0]).expect("read source");
        let n: u64 = m.get("n").and_then(|s| s.parse().ok()).unwrap_or(6);
        let sched = m.contains_key("sched");
        let b = runners::front::builtin_types();
        let f = runners::front::front(&src, &b);
        for d in f.parse_diags.iter().chain(f.type_diags.iter()) {
            println!("DIAG {} {:?}", d.message, d.labels);
        }
        let inp = runners::exec::Inputs { kind: 1, scale: 1.0 };
        let o = runners::exec::RunOpts { n, sched, want_state: true, want_counts: true, want_trace: false };
        if !m.contains_key("no-run") {
            engine::panics::install_hook();
            println!("VM   {:?}", runners::exec::run_vm(&src, &inp, &o));
            println!("WASM {:?}", runners::exec::run_wasm(&src, &inp, &o));
        }
        return;
    }
    let pid = m.get("prop").cloned().unwrap_or_default();
    let Some(prop) = props::get(&pid) else {
        eprintln!("unknown property {pid}");
        std::process::exit(2);
    };
    let cx = cx_from(&m);
    if !m.contains_key("keep-stderr") {
        silence_stderr();
    }
    engine::panics::install_hook();
    engine::panics::install_log_sink();
    match cmd {
        "plan" => {
            let sp: Vec<Value> = prop
                .spaces(cx.tier)
                .iter()
                .map(|s| json!({"name": s.name, "size": s.size, "exhaustive": s.exhaustive, "chunk": s.chunk, "case_timeout_s": s.case_timeout_s, "what": s.what}))
                .collect();
            println!("{}", json!({"prop": prop.id(), "spaces": sp, "rule": prop.rule(), "assumptions": prop.assumptions(), "required_classes": prop.required_classes(cx.tier), "hang_is_violation": prop.hang_is_violation(), "level": prop.level(), "fail_budget": prop.fail_budget()}));
        }
        "chunk" => {
            let a = worker::ChunkArgs {
                space: m.get("space").cloned().unwrap_or_default(),
                from: m.get("from").and_then(|s| s.parse().ok()).unwrap_or(0),
                to: m.get("to").and_then(|s| s.parse().ok()).unwrap_or(0),
                out: m.get("out").cloned().expect("--out"),
                journal: m.get("journal").cloned(),
                hashes: m.get("hashes").cloned(),
            };
            std::process::exit(worker::run_chunk(prop, &cx, &a));
        }
        "one" => {
            // run one case from a replay file; prints the verdict as JSON
            let path = m.get("replay").expect("--replay");
            let rep: Value = serde_json::from_slice(&std::fs::read(path).expect("read replay")).expect("replay json");
            let cx = Cx { render: true, ..cx };
            let r = worker::run_replay(prop, &rep, &cx, m.get("spill").map(|s| s.as_str()));
            println!("{}", worker::result_json(&r));
            std::process::exit(match r.status {
                Status::Held => 0,
                Status::Fail { .. } => 1,
                Status::Discard(_) => 3,
            });
        }
        "shrink" => {
            let path = m.get("replay").expect("--replay");
            let out = m.get("out").expect("--out");
            let budget: usize = m.get("budget").and_then(|s| s.parse().ok()).unwrap_or(2000);
            let rep: Value = serde_json::from_slice(&std::fs::read(path).expect("read replay")).expect("replay json");
            let res = if m.contains_key("isolate") {
                let exe = std::env::current_exe().unwrap();
                let pidc = pid.clone();
                let tier = cx.tier.name().to_string();
                let seed = cx.seed;
                let tmp = format!("{out}.cand");
                let timeout: u64 = m.get("timeout").and_then(|s| s.parse().ok()).unwrap_or(30);
                let iso = move |v: &Value| -> Option<String> {
                    std::fs::write(&tmp, serde_json::to_vec(v).unwrap()).ok()?;
                    let outp = std::process::Command::new("timeout")
                        .arg(format!("{timeout}"))
                        .arg(&exe)
                        .args(["one", "--prop", &pidc, "--tier", &tier, "--seed", &seed.to_string(), "--strict", "--replay", &tmp])
                        .output()
                        .ok()?;
                    use std::os::unix::process::ExitStatusExt;
                    if let Some(sig) = outp.status.signal() {
                        return Some(format!("abort:signal{sig}"));
                    }
                    match outp.status.code() {
                        Some(124) => Some("timeout".to_string()),
                        Some(1) => {
                            let v: Value = serde_json::from_slice(&outp.stdout).ok()?;
                            v.get("status")?.get("fail")?.as_str().map(|s| s.to_string())
                        }
                        Some(c) if c > 100 => Some(format!("abort:exit{c}")),
                        _ => None,
                    }
                };
                worker::shrink_replay(prop, &rep, &cx, budget, Some(&iso))
            } else {
                worker::shrink_replay(prop, &rep, &cx, budget, None)
            };
            std::fs::write(out, serde_json::to_vec_pretty(&res).unwrap()).expect("write shrunk");
        }
        "rule" => {
            println!("{}", json!({"rule": prop.rule(), "assumptions": prop.assumptions()}));
        }
        _ => {
            eprintln!("unknown command {cmd}");
            std::process::exit(2);
        }
    }
}
