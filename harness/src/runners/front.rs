//! Front-end runner: the calls the language server and the CLI make on a text.

use mimium_audiodriver::backends::local_buffer::LocalBufferDriver;
use mimium_audiodriver::driver::Driver;
use mimium_lang::compiler::{mirgen, parser};
use mimium_lang::interner::{Symbol, TypeNodeId};
use mimium_lang::plugin::Plugin;
use mimium_lang::utils::error::ReportableError;
use mimium_lang::{Config, ExecContext};

/// A compile context as the CLI builds it (local-buffer driver for now/samplerate + scheduler).
pub fn exec_context(sched: bool) -> ExecContext {
    let driver = LocalBufferDriver::new(0);
    let plug: Box<dyn Plugin> = Box::new(driver.get_as_plugin());
    let mut ctx = ExecContext::new([plug].into_iter(), None, Config::default());
    if sched {
        ctx.add_system_plugin(mimium_scheduler::get_default_scheduler_plugin());
    }
    ctx
}

pub fn builtin_types() -> Vec<(Symbol, TypeNodeId)> {
    let mut ctx = exec_context(true);
    ctx.prepare_compiler();
    ctx.get_compiler().unwrap().get_ext_typeinfos()
}

#[derive(Default, Debug, Clone)]
pub struct Diag {
    pub message: String,
    /// (start, end, path, label)
    pub labels: Vec<(usize, usize, String, String)>,
}

pub fn diag_of(e: &dyn ReportableError) -> Diag {
    let labels = e.get_labels().into_iter().map(|(l, m)| (l.span.start, l.span.end, l.path.to_string_lossy().to_string(), m)).collect();
    Diag { message: e.get_message(), labels }
}

pub fn diags_of(es: &[Box<dyn ReportableError>]) -> Vec<Diag> {
    es.iter().map(|e| diag_of(e.as_ref())).collect()
}

/// span check of C04: inside the text and on char boundaries (only labels that point into the
/// analysed text, i.e. with the default/empty path)
/// Returns (kind, description).  `kind` is part of the failure signature.
pub fn bad_span(src: &str, d: &Diag) -> Option<(&'static str, String)> {
    for (s, e, path, label) in &d.labels {
        if !path.is_empty() {
            continue;
        }
        // the type checker's "no location known" placeholder is the literal span 0..1
        let placeholder = *s == 0 && *e == 1;
        if s > e {
            return Some(("reversed", format!("span {s}..{e} is reversed ({label})")));
        }
        if *e > src.len() {
            return Some((if placeholder { "placeholder-0..1" } else { "beyond-end" }, format!("span {s}..{e} ends beyond the text of {} bytes ({label})", src.len())));
        }
        if !src.is_char_boundary(*s) || !src.is_char_boundary(*e) {
            return Some((if placeholder { "placeholder-0..1" } else { "char-boundary" }, format!("span {s}..{e} is not on character boundaries ({label})")));
        }
    }
    None
}

pub struct Front {
    pub parse_diags: Vec<Diag>,
    pub type_diags: Vec<Diag>,
}

/// parse_to_expr + the language server's type-check sequence
pub fn front(src: &str, builtins: &[(Symbol, TypeNodeId)]) -> Front {
    let (ast, module_info, perrs) = parser::parse_to_expr(src, None);
    let parse_diags = diags_of(&perrs);
    let ast = if ast.has_staging_constructs() { ast.wrap_to_staged_expr() } else { ast };
    let (_, _, terrs) = mirgen::typecheck_with_module_info(ast, builtins, None, module_info);
    let type_diags = diags_of(&terrs);
    Front { parse_diags, type_diags }
}
