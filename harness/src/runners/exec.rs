//! Execution runners: compile a source and drive it sample by sample through the `DspRuntime`
//! protocol the audio drivers use, on the bytecode VM and on the WASM runtime.

use super::front::{self, Diag};
use crate::engine::panics::{self, PanicInfo};
use mimium_audiodriver::backends::local_buffer::LocalBufferDriver;
use mimium_audiodriver::driver::{Driver, RuntimeData, VmDspRuntime};
use mimium_lang::plugin::Plugin;
use mimium_lang::runtime::wasm::engine::{WasmDspRuntime, WasmEngine};
use mimium_lang::runtime::{DspRuntime, Time};
use mimium_lang::{Config, ExecContext};
use std::sync::atomic::Ordering;

/// Input stream: value of channel `ch` at sample `t`.
#[derive(Clone, Debug)]
pub struct Inputs {
    pub kind: u8,
    pub scale: f64,
}
impl Inputs {
    pub fn at(&self, t: u64, ch: usize) -> f64 {
        let t = t as f64;
        let c = ch as f64;
        match self.kind {
            0 => self.scale + c,
            1 => (t * 0.5 + c) * self.scale,
            2 => (if (t as u64) % 2 == 0 { 1.0 } else { -1.0 }) * (self.scale + c),
            3 => ((t + c) * 0.7).sin() * self.scale,
            4 => [0.0, -0.0, 1.0, -1.0, 0.5, 1e-310, 1e300, -1e300][((t as usize) + ch) % 8],
            5 => [f64::INFINITY, 1.0, f64::NEG_INFINITY, 0.0, f64::NAN, 2.0][((t as usize) + ch) % 6],
            _ => t - 3.0 * c,
        }
    }
    pub fn describe(&self) -> String {
        format!("{}*{}", ["const", "ramp", "alternating", "sine", "edge-finite", "edge-nonfinite", "ramp-neg"][self.kind.min(6) as usize], self.scale)
    }
}

#[derive(Clone, Debug, Default)]
pub struct RunOut {
    pub n_in: u32,
    pub n_out: u32,
    /// per sample: output words (f64 bits)
    pub samples: Vec<Vec<u64>>,
    /// per sample: dsp state words after the sample (when requested)
    pub state: Vec<Vec<u64>>,
    /// per sample: (live closures, live heap objects) — VM only
    pub counts: Vec<(usize, usize)>,
    /// state cursor after each sample — VM only
    pub cursor: Vec<usize>,
    /// size of the published dsp state skeleton
    pub skeleton_words: Option<u64>,
    /// non-zero return codes of run_dsp (sample index, code)
    pub bad_rc: Vec<(u64, i64)>,
    /// leaves of the published dsp state skeleton: (offset, size in words, kind 0=feed 1=mem 2=delay)
    pub leaves: Vec<(usize, usize, u8)>,
    /// number of call nodes with >= 1 child below the root (nesting of stateful calls)
    pub skeleton_calls: usize,
    /// per sample: recorded state accesses (kind 0 read / 1 write / 2 ring, on the dsp storage?, cursor, size)
    pub trace: Vec<Vec<(u8, bool, usize, usize)>>,
    /// length of the VM's dsp state storage after each sample
    pub storage_len: Vec<usize>,
}

#[derive(Debug)]
pub enum Exec {
    Rejected(Vec<Diag>),
    /// compiled, but there is no dsp I/O information (no dsp function)
    NoIo,
    Ran(RunOut),
    /// (stage, panic)
    Panic(String, PanicInfo),
    /// an Err that is not a list of diagnostics (engine creation, module load, trap in main…)
    Error(String, String),
}

pub struct RunOpts {
    pub n: u64,
    pub sched: bool,
    pub want_state: bool,
    pub want_counts: bool,
    pub want_trace: bool,
}

/// leaves of a state skeleton with their flat offsets
pub fn skeleton_leaves(sk: &state_tree::tree::StateTreeSkeleton<mimium_lang::mir::StateType>, base: usize, out: &mut Vec<(usize, usize, u8)>, calls: &mut usize, depth: usize) {
    use state_tree::tree::{SizedType, StateTreeSkeleton as Sk};
    match sk {
        Sk::Feed(t) => out.push((base, t.word_size() as usize, 0)),
        Sk::Mem(t) => out.push((base, t.word_size() as usize, 1)),
        Sk::Delay { len } => out.push((base, *len as usize + 2, 2)),
        Sk::FnCall(cs) => {
            if depth > 0 && !cs.is_empty() {
                *calls += 1;
            }
            let mut off = base;
            for c in cs {
                skeleton_leaves(c, off, out, calls, depth + 1);
                off += c.total_size() as usize;
            }
        }
    }
}

pub fn canon(bits: u64) -> u64 {
    // all NaNs are identified
    if f64::from_bits(bits).is_nan() { 0x7ff8_0000_0000_0000 } else { bits }
}

pub fn run_vm(src: &str, inputs: &Inputs, o: &RunOpts) -> Exec {
    let driver = LocalBufferDriver::new(0);
    let plug: Box<dyn Plugin> = Box::new(driver.get_as_plugin());
    let count = driver.count.clone();
    let mut ctx = ExecContext::new([plug].into_iter(), None, Config::default());
    if o.sched {
        ctx.add_system_plugin(mimium_scheduler::get_default_scheduler_plugin());
    }
    match panics::catch(|| ctx.prepare_machine(src).map_err(|e| front::diags_of(&e))) {
        Err(p) => return Exec::Panic("compile".into(), p),
        Ok(Err(d)) => return Exec::Rejected(d),
        Ok(Ok(())) => {}
    }
    let skeleton_words = ctx.get_vm().and_then(|vm| vm.prog.get_dsp_state_skeleton().map(|s| s.total_size()));
    let mut leaves = vec![];
    let mut skeleton_calls = 0usize;
    if let Some(sk) = ctx.get_vm().and_then(|vm| vm.prog.get_dsp_state_skeleton()) {
        skeleton_leaves(sk, 0, &mut leaves, &mut skeleton_calls, 0);
    }
    if let Err(p) = panics::catch(|| {
        let _ = ctx.run_main();
    }) {
        return Exec::Panic("main".into(), p);
    }
    let mut rd = match panics::catch(|| RuntimeData::try_from(&mut ctx)) {
        Err(p) => return Exec::Panic("runtime-setup".into(), p),
        Ok(Err(_)) => return Exec::NoIo,
        Ok(Ok(rd)) => rd,
    };
    let Some(io) = rd.io_channels() else { return Exec::NoIo };
    let mut out = RunOut { n_in: io.input, n_out: io.output, skeleton_words, leaves, skeleton_calls, ..Default::default() };
    for t in 0..o.n {
        count.store(t, Ordering::Relaxed);
        #[cfg(feature = "hooks")]
        if o.want_trace {
            mimium_lang::runtime::vm::verif_hooks::start_trace();
        }
        let inp: Vec<f64> = (0..io.input as usize).map(|c| inputs.at(t, c)).collect();
        let r = panics::catch(|| {
            rd.set_input(&inp);
            let rc = rd.run_dsp(Time(t));
            (rc, rd.get_output(io.output as usize).iter().map(|f| f.to_bits()).collect::<Vec<u64>>())
        });
        match r {
            Err(p) => return Exec::Panic(format!("dsp@{t}"), p),
            Ok((rc, words)) => {
                if rc != 0 {
                    out.bad_rc.push((t, rc));
                }
                out.samples.push(words);
            }
        }
        if o.want_state || o.want_counts || o.want_trace {
            if let Some(v) = rd.downcast_runtime_ref::<VmDspRuntime>() {
                if o.want_counts {
                    out.counts.push((v.vm.closures.len(), v.vm.heap.len()));
                }
                #[cfg(feature = "hooks")]
                if o.want_state || o.want_trace {
                    let (w, pos) = v.vm.verif_global_state();
                    if o.want_trace {
                        let gp = w.as_ptr() as usize;
                        let tr = mimium_lang::runtime::vm::verif_hooks::take_trace();
                        out.trace.push(tr.iter().map(|a| (a.kind, a.storage == gp, a.pos, a.size)).collect());
                        out.storage_len.push(w.len());
                    }
                    out.state.push(w.to_vec());
                    out.cursor.push(pos);
                }
            }
        }
    }
    Exec::Ran(out)
}

pub struct WasmCompiled {
    pub out: mimium_lang::compiler::WasmOutput,
    pub ctx: ExecContext,
}

/// Compile for the WASM backend exactly like `run_source_with_scheduler_wasm` of mimium-test.
pub fn compile_wasm(src: &str, sched: bool) -> Result<Result<WasmCompiled, Vec<Diag>>, PanicInfo> {
    let mut ctx = ExecContext::new([].into_iter(), None, Config::default());
    if sched {
        ctx.add_system_plugin(mimium_scheduler::get_default_scheduler_plugin());
    }
    ctx.prepare_compiler();
    let r = panics::catch(|| ctx.get_compiler().unwrap().emit_wasm(src).map_err(|e| front::diags_of(&e)));
    match r {
        Err(p) => Err(p),
        Ok(Err(d)) => Ok(Err(d)),
        Ok(Ok(out)) => Ok(Ok(WasmCompiled { out, ctx })),
    }
}

pub fn start_wasm(c: &mut WasmCompiled) -> Result<WasmDspRuntime, String> {
    let ext_fns = c.ctx.get_extfun_types();
    let plugin_fns = c.ctx.freeze_wasm_plugin_fns();
    let workers = c.ctx.generate_wasm_audioworkers();
    let mut engine = WasmEngine::new(&ext_fns, plugin_fns).map_err(|e| format!("engine: {e}"))?;
    engine.load_module(&c.out.bytes).map_err(|e| format!("load_module: {e}"))?;
    let mut rt = WasmDspRuntime::new(engine, c.out.io_channels, c.out.dsp_state_skeleton.clone());
    rt.set_wasm_audioworkers(workers);
    rt.set_sample_rate(48000.0);
    rt.run_main().map_err(|e| format!("main: {e}"))?;
    Ok(rt)
}

pub fn run_wasm(src: &str, inputs: &Inputs, o: &RunOpts) -> Exec {
    let mut c = match compile_wasm(src, o.sched) {
        Err(p) => return Exec::Panic("compile".into(), p),
        Ok(Err(d)) => return Exec::Rejected(d),
        Ok(Ok(c)) => c,
    };
    let skeleton_words = c.out.dsp_state_skeleton.as_ref().map(|s| s.total_size());
    let mut rt = match panics::catch(|| start_wasm(&mut c)) {
        Err(p) => return Exec::Panic("start".into(), p),
        Ok(Err(e)) => return Exec::Error("start".into(), e),
        Ok(Ok(rt)) => rt,
    };
    let Some(io) = c.out.io_channels else { return Exec::NoIo };
    let mut out = RunOut { n_in: io.input, n_out: io.output, skeleton_words, ..Default::default() };
    for t in 0..o.n {
        let inp: Vec<f64> = (0..io.input as usize).map(|ch| inputs.at(t, ch)).collect();
        let r = panics::catch(|| {
            rt.set_input(&inp);
            let rc = rt.run_dsp(Time(t));
            (rc, rt.get_output(io.output as usize).iter().map(|f| f.to_bits()).collect::<Vec<u64>>())
        });
        match r {
            Err(p) => return Exec::Panic(format!("dsp@{t}"), p),
            Ok((rc, words)) => {
                if rc != 0 {
                    out.bad_rc.push((t, rc));
                }
                out.samples.push(words);
            }
        }
        if o.want_state {
            let w = rt.engine_mut().get_global_state_data().map(|d| d.to_vec()).unwrap_or_default();
            out.state.push(w);
        }
    }
    Exec::Ran(out)
}
