pub mod artefacts;
pub mod exec;
pub mod front;
pub mod swap;
pub mod coop;
