pub mod exec;
pub mod front;
