pub mod front;
