//! Harness-owned interleavings of concurrent compilations (C19).
//!
//! Hook H3 (`interner::verif_hooks::set_sched_point`) calls back in front of every access to the
//! repository's session globals.  Here that callback is a cooperative scheduler: exactly one of
//! the K job threads runs at a time; at a scheduling point the running thread either continues
//! (its segment still has budget) or hands the turn to the thread the *plan* names next.  A plan
//! is a list of (segment length in scheduling points, thread pick) drawn from the case's tape, so
//! the interleaving — at the granularity of session-global accesses — is part of the case and
//! can be replayed and shrunk.  When the plan is used up it repeats from its start.
//!
//! A thread that waits for its turn for `STALL_MS` without the running thread passing a
//! scheduling point takes the turn by force (counted as `forced`): this keeps the scheduler from
//! turning a lock that a paused thread holds into a deadlock of the harness's own making.

use std::cell::Cell;
use std::sync::{Condvar, Mutex};
use std::time::Duration;

const NONE: usize = usize::MAX;
const STALL_MS: u64 = 3000;

#[derive(Clone, Debug, Default)]
pub struct Stats {
    pub points: u64,
    pub switches: u64,
    pub forced: u64,
    /// scheduling points per thread
    pub per_thread: Vec<u64>,
}

struct State {
    current: usize,
    budget: u64,
    alive: Vec<bool>,
    arrived: usize,
    plan: Vec<(u64, u64)>,
    pos: usize,
    progress: u64,
    stats: Stats,
}

static STATE: Mutex<Option<State>> = Mutex::new(None);
static CV: Condvar = Condvar::new();

thread_local! {
    static ME: Cell<usize> = const { Cell::new(NONE) };
}

fn choose_next(st: &mut State) {
    let alive: Vec<usize> = (0..st.alive.len()).filter(|i| st.alive[*i]).collect();
    if alive.is_empty() {
        st.current = NONE;
        return;
    }
    let (len, pick) = if st.plan.is_empty() { (1, 0) } else { st.plan[st.pos % st.plan.len()] };
    st.pos += 1;
    let idx = alive[((pick & 0xffff) as usize * alive.len()) >> 16];
    if idx != st.current {
        st.stats.switches += 1;
    }
    st.current = idx;
    st.budget = len.max(1);
}

fn lock() -> std::sync::MutexGuard<'static, Option<State>> {
    STATE.lock().unwrap_or_else(|e| e.into_inner())
}

/// wait (holding the guard) until it is `me`'s turn; takes the turn by force after a stall
fn wait_turn(mut g: std::sync::MutexGuard<'static, Option<State>>, me: usize) {
    let mut seen = g.as_ref().map(|s| s.progress).unwrap_or(0);
    let mut stalled = 0u64;
    loop {
        match g.as_ref() {
            None => return,
            Some(st) if st.current == me => return,
            _ => {}
        }
        let (g2, to) = CV.wait_timeout(g, Duration::from_millis(100)).unwrap_or_else(|e| e.into_inner());
        g = g2;
        let Some(st) = g.as_mut() else { return };
        if st.current == me {
            return;
        }
        if to.timed_out() {
            if st.progress == seen {
                stalled += 100;
            } else {
                seen = st.progress;
                stalled = 0;
            }
            if stalled >= STALL_MS {
                st.stats.forced += 1;
                st.current = me;
                st.budget = 64;
                return;
            }
        } else {
            seen = st.progress;
            stalled = 0;
        }
    }
}

/// the callback installed into the repository's hook
fn sched_point() {
    let me = ME.with(|m| m.get());
    if me == NONE {
        return;
    }
    let mut g = lock();
    let Some(st) = g.as_mut() else { return };
    st.stats.points += 1;
    st.stats.per_thread[me] += 1;
    st.progress += 1;
    if st.current == me {
        if st.budget > 0 {
            st.budget -= 1;
            return;
        }
        choose_next(st);
        if st.current == me {
            return;
        }
        CV.notify_all();
    }
    wait_turn(g, me);
}

fn enter(me: usize) {
    ME.with(|m| m.set(me));
    let mut g = lock();
    if let Some(st) = g.as_mut() {
        st.arrived += 1;
    }
    CV.notify_all();
    wait_turn(g, me);
}

fn leave() {
    let me = ME.with(|m| m.replace(NONE));
    if me == NONE {
        return;
    }
    let mut g = lock();
    if let Some(st) = g.as_mut() {
        st.alive[me] = false;
        st.progress += 1;
        if st.current == me || st.current == NONE {
            choose_next(st);
        }
    }
    CV.notify_all();
}

/// Run the jobs on K threads under the plan; returns each job's result and the schedule statistics.
pub fn run_planned<T: Send + 'static>(k: usize, plan: Vec<(u64, u64)>, job: impl Fn(usize) -> T + Send + Sync + 'static) -> (Vec<Option<T>>, Stats) {
    *lock() = Some(State { current: NONE, budget: 0, alive: vec![true; k], arrived: 0, plan, pos: 0, progress: 0, stats: Stats { per_thread: vec![0; k], ..Default::default() } });
    mimium_lang::interner::verif_hooks::set_sched_point(Some(sched_point));
    let job = std::sync::Arc::new(job);
    let handles: Vec<_> = (0..k)
        .map(|i| {
            let job = job.clone();
            std::thread::Builder::new()
                .stack_size(16 * 1024 * 1024)
                .spawn(move || {
                    struct Leave;
                    impl Drop for Leave {
                        fn drop(&mut self) {
                            leave();
                        }
                    }
                    enter(i);
                    let _l = Leave;
                    job(i)
                })
                .expect("spawn")
        })
        .collect();
    // start: wait until all threads stand at the gate, then give the first turn
    {
        let mut g = lock();
        loop {
            if g.as_ref().map(|s| s.arrived).unwrap_or(k) >= k {
                break;
            }
            g = CV.wait_timeout(g, Duration::from_millis(50)).unwrap_or_else(|e| e.into_inner()).0;
        }
        if let Some(st) = g.as_mut() {
            choose_next(st);
        }
        CV.notify_all();
    }
    let res: Vec<Option<T>> = handles.into_iter().map(|h| h.join().ok()).collect();
    mimium_lang::interner::verif_hooks::set_sched_point(None);
    let stats = lock().take().map(|s| s.stats).unwrap_or_default();
    (res, stats)
}
