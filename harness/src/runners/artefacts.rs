//! Compilation artefacts of a source (C15, C19): every observable product of compiling and
//! running a program, as bytes.

use super::exec::{self, Exec, Inputs, RunOpts};
use super::front;
use crate::engine::panics;
use crate::engine::rng::hash64;

#[derive(Clone, Debug, PartialEq, Eq)]
pub struct Artefacts {
    /// (name, hash, length) per artefact; the raw text of small ones is kept for reporting
    pub parts: Vec<(String, u64, usize)>,
    pub texts: Vec<(String, String)>,
    /// messages of the diagnostics a refused program got (not part of `digest`: C15 does not
    /// name diagnostics among the deterministic artefacts, C19 does)
    pub diagnostics: Vec<String>,
}

impl Artefacts {
    pub fn digest(&self) -> String {
        self.parts.iter().map(|(n, h, l)| format!("{n}:{h:016x}:{l}")).collect::<Vec<_>>().join(";")
    }
    /// digest plus the diagnostic messages (C19: "exactly the diagnostics it would obtain alone")
    pub fn digest_with_diagnostics(&self) -> String {
        // the ORDER in which several diagnostics are listed depends on the process's hash seeds
        // (e.g. the two halves of a type-alias cycle); that is no effect of concurrency, so the
        // messages are compared as a sorted list — the wording of each message stays exact
        let mut d = self.diagnostics.clone();
        d.sort();
        format!("{};diag:{:016x}:{}", self.digest(), hash64(d.join("\u{1}").as_bytes()), d.len())
    }
    pub fn first_difference(&self, other: &Artefacts) -> Option<String> {
        for (a, b) in self.parts.iter().zip(other.parts.iter()) {
            if a != b {
                return Some(a.0.clone());
            }
        }
        if self.parts.len() != other.parts.len() { Some("number-of-artefacts".into()) } else { None }
    }
}

/// first differing line of two listings
pub fn diff_line(a: &str, b: &str) -> String {
    for (i, (x, y)) in a.lines().zip(b.lines()).enumerate() {
        if x != y {
            return format!("line {}: `{}` vs `{}`", i + 1, x.chars().take(160).collect::<String>(), y.chars().take(160).collect::<String>());
        }
    }
    format!("lengths {} vs {}", a.len(), b.len())
}

pub fn compile_artefacts(src: &str, sched: bool, run: bool) -> Artefacts {
    let mut parts = vec![];
    let mut texts = vec![];
    let mut diagnostics: Vec<String> = vec![];
    let mut add = |name: &str, bytes: &[u8], keep: bool| {
        parts.push((name.to_string(), hash64(bytes), bytes.len()));
        if keep {
            texts.push((name.to_string(), String::from_utf8_lossy(bytes).chars().take(200_000).collect()));
        }
    };
    let mut ctx = front::exec_context(sched);
    ctx.prepare_compiler();
    // (the MIR listing prints interner ids of argument symbols, e.g. `arg 217`, which depend on what
    // the process interned before; the property does not list MIR among the deterministic artefacts)
    // bytecode listing + state layout + io
    match panics::catch(|| ctx.get_compiler().unwrap().emit_bytecode(src).map_err(|e| front::diags_of(&e))) {
        Ok(Ok(p)) => {
            add("bytecode", format!("{p}").as_bytes(), true);
            add("layout", format!("{:?}", p.get_dsp_state_skeleton()).as_bytes(), true);
            add("io", format!("{:?}", p.iochannels).as_bytes(), true);
        }
        Ok(Err(d)) => {
            add("bytecode", format!("ERR {}", d.len()).as_bytes(), true);
            diagnostics = d.iter().map(|x| format!("{} | {}", x.message, x.labels.iter().map(|l| l.3.clone()).collect::<Vec<_>>().join(" / "))).collect();
        }
        Err(p) => add("bytecode", format!("PANIC {}", p.signature()).as_bytes(), true),
    }
    // wasm bytes
    match panics::catch(|| ctx.get_compiler().unwrap().emit_wasm(src).map_err(|e| front::diags_of(&e))) {
        Ok(Ok(o)) => {
            add("wasm", &o.bytes, false);
            add("wasm-layout", format!("{:?}", o.dsp_state_skeleton).as_bytes(), true);
        }
        Ok(Err(d)) => add("wasm", format!("ERR {}", d.len()).as_bytes(), true),
        Err(p) => add("wasm", format!("PANIC {}", p.signature()).as_bytes(), true),
    }
    if run {
        let inputs = Inputs { kind: 1, scale: 1.0 };
        let o = RunOpts { n: 8, sched, want_state: false, want_counts: false, want_trace: false };
        for (name, r) in [("vm-out", exec::run_vm(src, &inputs, &o)), ("wasm-out", exec::run_wasm(src, &inputs, &o))] {
            let s = match r {
                Exec::Ran(a) => format!("{:?}", a.samples),
                Exec::Rejected(_) => "rejected".into(),
                Exec::NoIo => "no-io".into(),
                Exec::Panic(st, p) => format!("panic {st} {}", p.signature()),
                Exec::Error(st, e) => format!("error {st} {e}"),
            };
            add(name, s.as_bytes(), true);
        }
    }
    Artefacts { parts, texts, diagnostics }
}
