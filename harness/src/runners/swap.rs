//! Hot-swap runner: run a history `[(source, samples)]` on one runtime, swapping between entries
//! the way the live-coding CLI does (`DspRuntime::try_hot_swap`), with time continuing.

use super::exec::{compile_wasm, start_wasm, Inputs};
use super::front;
use crate::engine::panics::{self, PanicInfo};
use mimium_audiodriver::backends::local_buffer::LocalBufferDriver;
use mimium_audiodriver::driver::{Driver, RuntimeData};
use mimium_lang::plugin::Plugin;
use mimium_lang::runtime::{DspRuntime, ProgramPayload, Time};
use mimium_lang::{Config, ExecContext};
use std::sync::atomic::Ordering;

#[derive(Debug)]
pub enum SwapOut {
    /// per step: per sample output words; plus which steps were really swapped in
    Ran { steps: Vec<Vec<Vec<u64>>>, swapped: Vec<bool> },
    FirstRejected,
    NoIo,
    Panic(String, PanicInfo),
    /// try_hot_swap returned false / payload could not be prepared
    SwapRefused(usize, String),
    Error(String),
}

/// `start`: time of the first sample (for runs that begin later than 0)
pub fn run_vm_history(hist: &[(String, u64)], inputs: &Inputs, start: u64) -> SwapOut {
    let driver = LocalBufferDriver::new(0);
    let plug: Box<dyn Plugin> = Box::new(driver.get_as_plugin());
    let count = driver.count.clone();
    let mut ctx = ExecContext::new([plug].into_iter(), None, Config::default());
    match panics::catch(|| ctx.prepare_machine(&hist[0].0).map_err(|e| front::diags_of(&e))) {
        Err(p) => return SwapOut::Panic("compile#0".into(), p),
        Ok(Err(_)) => return SwapOut::FirstRejected,
        Ok(Ok(())) => {}
    }
    if let Err(p) = panics::catch(|| {
        let _ = ctx.run_main();
    }) {
        return SwapOut::Panic("main#0".into(), p);
    }
    let mut rd = match panics::catch(|| RuntimeData::try_from(&mut ctx)) {
        Err(p) => return SwapOut::Panic("setup".into(), p),
        Ok(Err(_)) => return SwapOut::NoIo,
        Ok(Ok(rd)) => rd,
    };
    let mut t = start;
    let mut steps = vec![];
    let mut swapped = vec![];
    for (k, (src, n)) in hist.iter().enumerate() {
        if k > 0 {
            // the CLI compiles on the same compiler context and only sends a payload on Ok
            let prog = match panics::catch(|| ctx.get_compiler().unwrap().emit_bytecode(src)) {
                Err(p) => return SwapOut::Panic(format!("compile#{k}"), p),
                Ok(r) => r,
            };
            match prog {
                Err(_) => swapped.push(false),
                Ok(prog) => {
                    match panics::catch(|| rd.resume_with_program(ProgramPayload::VmProgram(prog))) {
                        Err(p) => return SwapOut::Panic(format!("swap#{k}"), p),
                        Ok(false) => return SwapOut::SwapRefused(k, "try_hot_swap returned false".into()),
                        Ok(true) => swapped.push(true),
                    }
                }
            }
        } else {
            swapped.push(true);
        }
        let Some(io) = rd.io_channels() else { return SwapOut::NoIo };
        let mut out = vec![];
        for _ in 0..*n {
            count.store(t, Ordering::Relaxed);
            let inp: Vec<f64> = (0..io.input as usize).map(|c| inputs.at(t, c)).collect();
            let r = panics::catch(|| {
                rd.set_input(&inp);
                rd.run_dsp(Time(t));
                rd.get_output(io.output as usize).iter().map(|f| f.to_bits()).collect::<Vec<u64>>()
            });
            match r {
                Err(p) => return SwapOut::Panic(format!("dsp#{k}@{t}"), p),
                Ok(w) => out.push(w),
            }
            t += 1;
        }
        steps.push(out);
    }
    SwapOut::Ran { steps, swapped }
}

pub fn run_wasm_history(hist: &[(String, u64)], inputs: &Inputs, start: u64) -> SwapOut {
    let mut c = match compile_wasm(&hist[0].0, false) {
        Err(p) => return SwapOut::Panic("compile#0".into(), p),
        Ok(Err(_)) => return SwapOut::FirstRejected,
        Ok(Ok(c)) => c,
    };
    let mut rt = match panics::catch(|| start_wasm(&mut c)) {
        Err(p) => return SwapOut::Panic("start#0".into(), p),
        Ok(Err(e)) => return SwapOut::Error(format!("start: {e}")),
        Ok(Ok(rt)) => rt,
    };
    let mut prev_skel = c.out.dsp_state_skeleton.clone();
    let mut io = match c.out.io_channels {
        Some(io) => io,
        None => return SwapOut::NoIo,
    };
    let mut t = start;
    let mut steps = vec![];
    let mut swapped = vec![];
    for (k, (src, n)) in hist.iter().enumerate() {
        if k > 0 {
            let r = panics::catch(|| c.ctx.get_compiler().unwrap().emit_wasm(src));
            let out = match r {
                Err(p) => return SwapOut::Panic(format!("compile#{k}"), p),
                Ok(o) => o,
            };
            match out {
                Err(_) => swapped.push(false),
                Ok(o) => {
                    #[cfg(feature = "hooks")]
                    {
                        let new_skel = o.dsp_state_skeleton.clone();
                        let payload = panics::catch(|| mimium_cli::verif_prepare_wasm_hot_swap(o.bytes.clone(), prev_skel.clone(), new_skel.clone(), &o.ext_fns, None));
                        let payload = match payload {
                            Err(p) => return SwapOut::Panic(format!("prepare#{k}"), p),
                            Ok(Err(e)) => return SwapOut::SwapRefused(k, format!("prepare_hot_swap: {e}")),
                            Ok(Ok(p)) => p,
                        };
                        match panics::catch(|| rt.try_hot_swap(payload)) {
                            Err(p) => return SwapOut::Panic(format!("swap#{k}"), p),
                            Ok(false) => return SwapOut::SwapRefused(k, "try_hot_swap returned false".into()),
                            Ok(true) => swapped.push(true),
                        }
                        prev_skel = new_skel;
                        if let Some(nio) = o.io_channels {
                            io = nio;
                        }
                    }
                    #[cfg(not(feature = "hooks"))]
                    {
                        let _ = (&o, &mut prev_skel, &mut io);
                        return SwapOut::Error("built without hooks".into());
                    }
                }
            }
        } else {
            swapped.push(true);
        }
        let mut out = vec![];
        for _ in 0..*n {
            let inp: Vec<f64> = (0..io.input as usize).map(|ch| inputs.at(t, ch)).collect();
            let r = panics::catch(|| {
                rt.set_input(&inp);
                let rc = rt.run_dsp(Time(t));
                (rc, rt.get_output(io.output as usize).iter().map(|f| f.to_bits()).collect::<Vec<u64>>())
            });
            match r {
                Err(p) => return SwapOut::Panic(format!("dsp#{k}@{t}"), p),
                Ok((rc, w)) => {
                    if rc != 0 {
                        return SwapOut::Error(format!("wasm trap at step {k} sample {t}"));
                    }
                    out.push(w)
                }
            }
            t += 1;
        }
        steps.push(out);
    }
    SwapOut::Ran { steps, swapped }
}
