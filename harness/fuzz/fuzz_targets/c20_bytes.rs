#![no_main]
// coverage-guided target: the bytes are decoded by mmv::fuzzentry (see there) and judged by the
// property's ordinary oracle; a failing input aborts so that libFuzzer keeps it.
libfuzzer_sys::fuzz_target!(|data: &[u8]| {
    mmv::fuzzentry::fuzz_one("c20_bytes", data);
});
