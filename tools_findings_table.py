#!/usr/bin/env python3
"""Prints the findings tables of DESIGN.md from known_findings.json."""
import json, os
ROOT = os.path.dirname(os.path.abspath(__file__))
kf = json.load(open(os.path.join(ROOT, "known_findings.json")))
def esc(s, n):
    s = s.replace("|", "\\|").replace("\n", " ")
    return s if len(s) <= n else s[: n - 1] + "…"
ro, rf = [], []
for e in kf["findings"]:
    p = e["property"]
    p = ",".join(p) if isinstance(p, list) else p
    if e["status"] == "open":
        ro.append("| %s | %s | %s | %s |" % (e["id"], p, esc(e["what"], 260), esc(e.get("exclusion", ""), 170)))
    else:
        rf.append("| %s | %s | %s | %s |" % (e["id"], p, e.get("commit", ""), esc(e["what"], 220)))
print("### 8.1 Repaired defects (`fix:` commits in /repo, each pinned by replays that must keep passing)\n")
print("| id | property | commit | what failed |\n|---|---|---|---|")
print("\n".join(rf))
print("\n### 8.2 Open findings (recorded in known_findings.json, pinned by replays, printed as KNOWN-FINDING)\n")
print("| id | properties | what fails | how the search continues behind it |\n|---|---|---|---|")
print("\n".join(ro))
print("\n%d open, %d fixed." % (len(ro), len(rf)))
