#!/bin/bash
# usage: tools_thorough.sh "C01 C02 ..." [seed]   — thorough tiers one after the other (no rebuild), one summary line each
here="$(cd "$(dirname "$0")" && pwd)"; seed="${2:-0}"
for p in $1; do
  out=$(VERIF_SEED=$seed $here/check $p --tier thorough --no-build 2>&1); rc=$?
  echo "$p thorough seed=$seed rc=$rc $(echo "$out" | grep -E "^\[$p\]" | cut -c1-170)"
  echo "$out" | grep -E "^VIOLATION|signature:|INCONCLUSIVE|^NOTE" | head -20 | cut -c1-260
  mkdir -p $here/logs/thorough; echo "$out" > $here/logs/thorough/$p-seed$seed.log
  cp $here/replays/found/$p-*.json $here/logs/thorough/ 2>/dev/null
done
