#!/usr/bin/env python3
"""Regenerates MANIFEST.json from the table below (single source of truth for the interface)."""
import json, os
ROOT = os.path.dirname(os.path.abspath(__file__))
BASELINE = "cd /repo && cargo nextest run --workspace --no-fail-fast --tool-config-file pb:/w/lib/nextest.toml --profile pb --test-threads 8 --offline"

CHECKS = {
 "C08": dict(
   category="exploration",
   technique="exhaustive small-scope enumeration + random edit-script generation against validity predicates and an independent optimal-embedding reference (W*); thorough tier adds coverage-guided fuzzing (cargo-fuzz/libFuzzer targets whose inputs are judged by the same oracle)",
   text="Every ordered pair of layouts up to 4 (quick) / 5 (thorough) nodes is enumerated completely, plus tens of thousands (quick) / millions (thorough) of random larger pairs derived by edit scripts. Each plan is checked against the statement's predicates (bounds, identical shapes, disjoint destinations, sibling order, zero elsewhere, no-op on identical) and against an independent dynamic-programming reference for the words that must survive. Exhaustive below the bound, sampled above it; absence beyond the bound is not established. The thorough tier additionally runs libFuzzer campaigns whose inputs are the choice tapes of the edit-script and independent-pair generators.",
   note="Trusted: the harness's own shape equality, address computation and W* reference DP (independent of the repository's nodes_match/path_to_address). The survivor clause is demanded only where the surviving set does not depend on the edit script read into the pair (pure removal, pure addition, distinct leaf shapes).",
   design="2.C08"),
 "C13": dict(
   category="exploration",
   technique="exhaustive enumeration of short strings + random lexeme/Unicode/corpus-mutation texts against tiling, round-trip and leaf-sequence invariants; thorough tier adds coverage-guided fuzzing (cargo-fuzz/libFuzzer targets whose inputs are judged by the same oracle)",
   text="Every string up to length 5 (quick) / 6 (thorough) over a 24-symbol alphabet chosen to hit every tokenizer special case is enumerated completely; random lexeme sequences (one lexeme per token kind plus fusing and unterminated forms, odd Unicode) and mutated shipped sources extend it to long inputs. For each text the token tiling, the concatenation round-trip, the preparser's exactly-once attachment of trivia and the CST's leaf sequence and widths are checked exactly. Complete below the length bound for that alphabet, sampled above. The thorough tier additionally runs a libFuzzer campaign over raw texts (fixed number of runs, starting corpus = the shipped sources) with the same oracle inside the target.",
   note="Trusted: the harness's own walk of the green tree and its definition of 'neighbouring token' (the two non-trivia tokens around a trivia run). One open known finding (header trivia dropped) is tolerated in search and pinned by replay.",
   design="2.C13"),
 "C01": dict(
   category="exploration",
   technique="differential testing VM vs WASM over type-directed generated programs and mutated shipped sources, with tape shrinking",
   text="Thousands (quick) / >100k (thorough) of generated core-language programs and mutated shipped sources are compiled on both backends and driven sample by sample through the DspRuntime protocol with generated input streams; accept/reject, channel counts and every output word are compared bitwise. Sampled exploration of an infinite program space; the open recorded findings restrict the generator (each switch is listed in evidence) and are pinned by replays.",
   note="Trusted: the harness drives both runtimes through the same public DspRuntime calls the audio drivers use. The searched space excludes the program shapes of the open known findings; a failure whose shrunk program still contains a tuple/record is attributed to the umbrella finding C01-wasm-aggregates.",
   design="2.C01"),
 "C04": dict(
   category="exploration",
   technique="exhaustive token-sequence and nesting enumeration + random/mutated text fuzzing with crash-isolating workers; spans checked against the text; thorough tier adds coverage-guided fuzzing (cargo-fuzz/libFuzzer targets whose inputs are judged by the same oracle)",
   text="Every sequence of up to 3 (quick) / 4 (thorough) tokens over one lexeme per token kind and every nesting construct at every depth up to the stated bound of 64 is enumerated; random soups, longer sequences, module-structured texts, program templates with special expressions in unusual positions (space `holes`) and mutated shipped sources extend it. Each text runs the language server's and the CLI's entry points on an 8 MiB thread; panics are caught with their site, stack overflows and hangs are recovered from the worker journal, and every diagnostic span is checked against the text. The thorough tier additionally runs a libFuzzer campaign (fixed number of runs, 16 processes, starting corpus = the shipped sources) whose inputs are source texts; every saved input is re-judged by the plain worker and enters the same shrinking and known-finding classification.",
   note="Texts without diagnostics are not pushed through code generation here (C03's subject). Termination is a 20 s bound confirmed twice. Two open known findings (placeholder span 0..1, one unreachable!() site) are tolerated by signature and pinned by replay.",
   design="2.C04"),
 "C20": dict(
   category="exploration",
   technique="round-trip property testing of generated values/types (plus exhaustive small values) against a harness-side model; decoder robustness on mutated bytes; thorough tier adds coverage-guided fuzzing (cargo-fuzz/libFuzzer targets whose inputs are judged by the same oracle)",
   text="Generated Value and Type trees (all variants, edge floats, odd strings, empty aggregates, non-transportable nodes at any depth), all values of depth <= 2 over 8 leaves exhaustively, macro argument lists, and corrupted byte strings are pushed through the FFI encoders/decoders; results are compared with a harness-side model of the value, refusals are demanded where the property demands them. The thorough tier additionally runs libFuzzer campaigns over wire bytes (decoders must refuse or round-trip) and over the choice tapes of the value and argument-list generators.",
   note="The Type serde impls are exercised through serde_json with positional transcoding rather than bincode (variant indices are not observed on that leg); TypeNodeId/Value go through the real bincode path. One open known finding (ErrorV decodes to Unit).",
   design="2.C20"),
 "C03": dict(
   category="exploration",
   technique="property testing over generated well-typed programs and type-changing near-miss mutants with instrumented bounds assertions; crash-isolating workers",
   text="Generated core-language programs and programs after 1-2 type-changing mutations (tuple/lambda/string/int for a number, projection, call, arity changes, self, records, arrays, wrong annotations) are classified by the repository's own type checker; every accepted one must compile on both backends and run its global initialisation and 1-16 dsp calls on both runtimes without panic, abort, trap or hang, with the declared output width. Out-of-bounds state/global/upvalue accesses and stale closure handles are made visible by the verif-hooks assertions.",
   note="Only the instrumented access sites plus the VM's own debug assertions are observed; no ASan run. Seven recorded findings (type-checker holes and crash sites) are tolerated by signature or switched off in the generator and pinned by replays.",
   design="2.C03"),
 "C05": dict(
   category="exploration",
   technique="trace-vs-layout invariant checking on generated stateful call trees (access-recording hook), plus differential VM/WASM state words",
   text="For generated programs with nested stateful calls, the same function at several sites, tuple-valued self and delays, every state access the VM performs on the dsp storage is recorded by the hook and must coincide (offset, size, kind) with a leaf of the published state skeleton; storage size, cursor reset and cursor range are checked, and the flat state words are compared with the WASM runtime after every sample.",
   note="Closure-owned storages are only bounds-checked. Program shapes of open findings shared with C01 are switched off (listed in evidence).",
   design="2.C05"),
 "C14": dict(
   category="exploration",
   technique="round-trip / idempotence property testing of the formatter over shipped sources, layout-comment mutants and synthetic programs, with AST fingerprint and comment-sequence oracles; thorough tier adds coverage-guided fuzzing (cargo-fuzz/libFuzzer targets whose inputs are judged by the same oracle)",
   text="Every valid shipped source at 8 widths x 4 indents (exhaustive), thousands of layout/comment mutants and synthetic programs are formatted; the output must parse, have the same structural AST fingerprint, the same comment sequence, and be a fixed point. Seventeen formatter defects found this way are recorded; cases attributed to them by a token-level repair are discarded and counted, anything else is a violation. The thorough tier additionally runs a libFuzzer campaign over raw texts (first byte = width/indent), judged by the same oracle (texts that do not parse are discarded).",
   note="AST equality is a harness-side structural fingerprint of the lowered Program (spans ignored). Idempotence cannot be judged behind a structural defect (the first output does not parse).",
   design="2.C14"),
 "C02": dict(
   category="exploration",
   technique="model-based differential testing: generated core-fragment programs run on the VM vs an independent reference interpreter written from the property statement (calibrated on repository fixtures)",
   text="Tens of thousands (quick) / ~10^6 (thorough) of generated programs of the fragment whose meaning the statement fixes are evaluated by a harness-side reference interpreter (shared cells, left-to-right call-by-value, state tree keyed by textual call site, self/mem/delay by definition) and by the VM; every output word must agree bitwise. The reference and the renderer are calibrated against 8 repository fixtures and their authors' expected vectors on every run.",
   note="The reference interpreter is the trusted base. The fragment excludes constructs the statement does not fix and the shapes of two VM findings found by this check (pinned with expected values). Only the VM is compared here; WASM is tied in by C01.",
   design="2.C02"),
 "C06": dict(
   category="exploration",
   technique="metamorphic testing over histories: generated stateful programs x split points x repeated hot-swaps vs the uninterrupted run, on both runtimes",
   text="Generated stateful programs are run for n0 samples, hot-swapped to a fresh compilation of the same source through DspRuntime::try_hot_swap (1-4 times at generated split points, including before the first sample), and every output word is compared with the uninterrupted run, on the VM and on the WASM runtime (payload built by the CLI's own builder through a hook).",
   note="Programs whose globals depend on `now` or that keep state in closures created by main are outside the statement's domain and not generated. The CLI's subprocess compile path cannot be driven in-process.",
   design="2.C06"),
 "C07": dict(
   category="fault_enumeration",
   technique="stateful/model-based testing of edit histories (including injected compile failures) over voice-bank programs against a per-voice reference model",
   text="Histories of 2-5 run/edit/hot-swap steps over programs built from six independent stateful voices with pairwise distinct state-cell shapes: insert, delete, replace a voice at any position, change a constant, nest a voice, or an edit that fails to compile (the fault, at any point of the history). A harness model of each voice predicts every channel of every sample: untouched voices continue, new ones start from zero, a failed compile changes nothing. Both runtimes.",
   note="The voice library is small by design (distinct cell shapes keep 'untouched' unambiguous); a re-nested voice is not predicted. One open finding (WASM keeps the old channel count after a swap) is tolerated by comparing the common channel prefix.",
   design="2.C07"),
 "C11": dict(
   category="exploration",
   technique="model-based testing of generated task multisets (global/dsp/task origins, equal and fractional times, chains, fan-out) against a reference schedule model, plus VM-vs-WASM differential",
   text="Programs are generated from a multiset of (time, commutative effect) tasks scheduled from global scope, from dsp and from running tasks; a harness-side schedule model (pending multiset keyed by the truncated time, run-before-dsp, exactly once) predicts the accumulator outputs of every sample. The VM must equal the model bitwise and WASM must equal the VM; a small grid of global-scope schedules is enumerated exhaustively.",
   note="Order among equal-time tasks is not judged (effects commute). Times at or before the current sample are never generated (documented precondition). One open WASM finding (tick-created closures overwritten) is tolerated only under a stated hazard predicate.",
   design="2.C11"),
 "C12": dict(
   category="exploration",
   technique="invariant checking over long runs of generated allocating programs: live closure/heap counts after N vs 2N samples, stale-handle assertions and warnings",
   text="Generated programs that create closures per sample are run for 2N samples on the VM; the numbers of live closures and heap objects after sample N and after sample 2N must be equal, no closure handle may be used after release (hook assertion) and no retain/release may hit an invalid heap handle (log sink).",
   note="VM only. Boxed recursive variants and scheduled tasks are not generated. Two open leak findings (lambda passed as argument, closure returned by a call inside dsp) are switched off in the generator and pinned by replay.",
   design="2.C12"),
 "C15": dict(
   category="exploration",
   technique="differential testing of compilation artefacts across repetitions, generated compilation histories and fresh processes",
   text="Every shipped source (exhaustive) and generated programs are compiled three times inside a worker that has already compiled other cases, with 0-4 other programs (generated, shipped, broken) compiled in between, and once in a fresh child process with different hash seeds; bytecode listing, WASM bytes, state layouts, I/O channels and the outputs of 8 samples on both runtimes are compared byte for byte.",
   note="The MIR listing is not compared (it prints interner ids of argument symbols and is not among the artefacts the statement names). Program shapes of the VM finding that yields run-to-run different outputs are switched off with the other C01 switches.",
   design="2.C15"),
 "C16": dict(
   category="exploration",
   technique="metamorphic testing: one generated AST rendered canonically and under composed meaning-preserving transformations (renaming incl. compiler-like names, parentheses, annotations, comments, whitespace)",
   text="Each generated program is rendered twice from the same AST - canonically and after a random composition of a consistent injective renaming of all user identifiers (ordinary, odd and compiler-generated-looking names), redundant parentheses, annotations with the generator's own types, comments, indentation and blank lines - and both are compiled and run on the VM: accept/reject and every output word must agree.",
   note="Record field names are not renamed; line breaks are only varied between statements and inside blocks. Three open findings (feed_idN, _mimium_global, parenthesised records/lambdas) are excluded from the transformation pool and pinned by replays.",
   design="2.C16"),
 "C09": dict(
   category="exploration",
   technique="differential testing of generated staged programs against their hand expansion produced by the generator (substitution on the harness AST)",
   text="A generator builds a stage-1 expression and one of six staging contexts (quote-splice, macro function used as f!() and $(f()), code parameters, let-bound code, numeric recursion building code, lift of macro-stage numbers) and emits both the staged program and its manual expansion; both run on the VM (a tuple-free tenth also on WASM) and must agree bitwise; lifted constants are compared with the harness's own f64 computation.",
   note="The expansion is produced by substitution in the harness, never by the repository's expander. Quoted records, arrays, match, strings and three or more stages are not generated.",
   design="2.C09"),
 "C10": dict(
   category="exploration",
   technique="metamorphic testing: alpha-renaming of binders inside macro bodies over generated macro/use-site pairs with deliberate name collisions, plus exhaustive probes of compiler temporaries",
   text="Macro bodies that bind a local around or next to a splice are paired with use sites that mention names from a collision pool (the binder's name, compiler temporaries, ordinary names); the program and its variant with the macro's binders renamed to fresh names must be accepted alike and produce bitwise equal outputs, and agree with the capture-avoiding expansion. Eleven hand-written probes of compiler-synthesised names are enumerated exhaustively.",
   note="Five open findings (capture by macro binders, let leaking out of blocks, feed_idN, __dtN, record_update_temp) decide most colliding cases; those cases are skipped and counted, the `agree` space searches where the binding models predict no capture.",
   design="2.C10"),
 "C18": dict(
   category="exploration",
   technique="differential testing VM vs rustc-compiled generated Rust over generated programs and shipped sources",
   text="Generated programs and shipped sources are transpiled with emit_rust; a refusal is legal, emitted Rust must compile with rustc together with the repository's own host template and print the same output words as the VM for 1-16 samples (time advanced by one per sample).",
   note="About 0.4 s per case, so the quick tier is ~100 programs. Eight open findings of the Rust backend are tolerated by narrow predicates on the emitted Rust text or rewritten away in the generator.",
   design="2.C18"),
 "C17": dict(
   category="exploration",
   technique="model-based testing of generated inline module trees and reference routes against a harness-side resolution model; exhaustive enumeration of single-route programs; thorough tier adds coverage-guided fuzzing (cargo-fuzz/libFuzzer targets whose inputs are judged by the same oracle)",
   text="Inline module trees with random pub/private members (each function returns a distinct constant), use / multi / wildcard / pub-use chains and shadowing locals are generated together with reference sites at top level, inside modules and inside lambdas; a harness resolution model computes the unique target or 'must be rejected'. Positive programs must compile and return the model's constants, negative programs (exactly one illegal reference) must be rejected. Every well-formed single-reference program over a fixed 2-level tree (2328) is enumerated exhaustively. The thorough tier additionally runs libFuzzer campaigns whose inputs are the choice tapes of the positive and negative module-tree generators.",
   note="The resolution model is the trusted base (its rules for nested modules follow the module_* fixtures). Four open findings (module visibility ignored, re-export leak, file-global alias and wildcard tables) are excluded by construction or tolerated narrowly and pinned by replays.",
   design="2.C17"),
 "C19": dict(
   category="exploration",
   technique="schedule generation: K compile+run jobs under a harness-owned interleaving (cooperative scheduler on a scheduling-point hook in front of every session-globals access; the plan is drawn from the tape, replayed and shrunk), plus free-running concurrency stress on K OS threads; each job compared with its solo result in a fresh process; memcheck-instrumented runs of planned interleavings (valgrind) as a memory-safety oracle",
   text="Sets of 2-6 jobs (generated programs, shipped sources including macro programs that touch the process environment, sum-type programs with multi-constructor diagnostics, duplicates, near-duplicates, identifier shuffles and broken texts) are first run alone, each in a fresh process. Space `sched`: the jobs run on K threads of a fresh process of which exactly one runs at a time; hook H3 calls the harness at every session-globals access (about 14 000 per job) and the turn changes where the case's plan (4-50 (segment length, thread) pairs in five styles from single-access alternation to long runs, cyclic) says. Space `stress`: the jobs are started together behind a barrier on K OS threads, twice. Every job's artefacts (bytecode listing, WASM bytes, layouts, outputs, diagnostic messages) must equal its solo artefacts and no job may panic only when run concurrently. A third space repeats planned interleavings of symbol-heavy jobs with the whole process under valgrind/memcheck: an invalid read, write or free that no job shows alone is a failure.",
   note="Owned interleavings exist only at the granularity of session-globals accesses; code between two accesses runs atomically under a plan, and the free-running space sees whatever the OS produces, so absence of a race is not established. A difference under a plan is reported when the same plan shows it twice (stress: 3 sightings); otherwise it is counted. A run of the jobs together that does not finish within 40x the time they took one after the other (at least 45 s), twice, is reported as a hang (deadlock or livelock).",
   design="2.C19"),
}

NOT_YET = {
}

def main():
    props = [json.loads(l) for l in open(os.path.join(ROOT, "properties.jsonl"))]
    checks = []
    for p in props:
        pid = p["id"]
        if pid in CHECKS:
            c = CHECKS[pid]
            checks.append({
                "property_id": pid,
                "quick_cmd": f"./check {pid} --tier quick",
                "thorough_cmd": f"./check {pid} --tier thorough",
                "evidence_file": f"/verif/evidence/{pid}.json",
                "replay_cmd_template": f"./check {pid} --replay {{path}}",
                "engine": "mmv",
                "level_claimed": {"category": c["category"], "text": c["text"], "design_ref": c["design"]},
                "level_note": c["note"],
                "technique": c["technique"],
            })
    na = [{"property_id": p["id"], "reason": NOT_YET.get(p["id"], "check not built yet in this revision of /verif (work in progress; see DESIGN.md section 2 for the planned generator and oracle)")} for p in props if p["id"] not in CHECKS]
    hooks_commits = [l.strip() for l in open(os.path.join(ROOT, "hooks_commits.txt")) if l.strip()] if os.path.exists(os.path.join(ROOT, "hooks_commits.txt")) else []
    m = {
        "version": 1,
        "setup_cmd": "./check --setup",
        "hooks": {
            "guard": "cargo feature `verif-hooks` (mimium-lang, mimium-cli); off by default",
            "enable": "the harness depends on /repo's crates by path with features = [\"verif-hooks\"]; `./check` rebuilds it with `cargo build --release --offline` in /verif/harness",
            "baseline_off_cmd": BASELINE,
            "source_commits": hooks_commits,
            "add_only": True,
        },
        "engines": [{"name": "mmv", "path": "/verif/harness", "serves_properties": sorted(CHECKS), "kind_free_text": "own choice-tape property-testing engine (random structured generation, small-scope exhaustive enumeration, tape shrinking, crash-isolating worker processes) driven by /verif/check; cargo-fuzz/libFuzzer targets (harness/fuzz, thorough tier of C04 C08 C13 C14 C17 C20) read their input as source text, wire bytes or the choice tape of the same generators and run the same oracles"}],
        "checks": checks,
        "not_applicable": na,
        "notes": "All checks: exit 0 = held (KNOWN-FINDING lines possible), 1 = VIOLATION line with replay path, 2 = infrastructure trouble/inconclusive. VERIF_SEED selects the tape stream; VERIF_TIER is honoured. known_findings.json lists open and fixed findings; it is never written at run time.",
    }
    with open(os.path.join(ROOT, "MANIFEST.json"), "w") as f:
        json.dump(m, f, indent=1)
        f.write("\n")

if __name__ == "__main__":
    main()
