#!/bin/bash
# usage: tools_verify_seed.sh <tag> [<package> <test-name>]   — confirms a seeded change in the adversary's own scratch
# worktree /tmp/wt-<tag> (already built there): existing suite passes with the change; the demonstration fails with it and
# passes without it.  Leaves the worktree clean (build output kept until the worktree is removed).
tag="$1"; pkg="${2:-mimium-test}"; tname="${3:-$(echo $tag | tr 'A-Z' 'a-z')_demo}"
src=/tmp/seeded/$tag; wt=${WT:-/tmp/wt-$tag}; export CARGO_TARGET_DIR=$wt/target
mkdir -p /verif/logs/verify; log=/verif/logs/verify/$tag.log; : > $log
cd $wt || exit 2
git checkout -q -- . ; git clean -fdq -e target
git apply $src/patch.diff || { echo "VERIFY $tag: patch does not apply" | tee -a $log; exit 2; }
suite=$(cargo nextest run --workspace --no-fail-fast --offline --test-threads 8 2>&1 | grep -E "Summary" | tail -1)
echo "VERIFY $tag suite-with-change: $suite" | tee -a $log
if [ -f $src/demo.diff ]; then
  git apply $src/demo.diff || { echo "VERIFY $tag: demo.diff does not apply" | tee -a $log; }
  with=$(cargo test --offline -p $pkg --test $tname 2>&1 | grep -E "^test result|error(\[|:)" | tail -1)
  git apply -R $src/patch.diff
  without=$(cargo test --offline -p $pkg --test $tname 2>&1 | grep -E "^test result|error(\[|:)" | tail -1)
  echo "VERIFY $tag demo-with-change: $with" | tee -a $log
  echo "VERIFY $tag demo-without-change: $without" | tee -a $log
fi
git checkout -q -- . ; git clean -fdq -e target
