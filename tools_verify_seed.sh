#!/bin/bash
# usage: tools_verify_seed.sh <tag> [<package> <test-name>]   — confirms a seeded change in the scratch worktree /tmp/wt-verify:
# existing suite passes with it; the demonstration fails with it and passes without it.
tag="$1"; pkg="$2"; tname="$3"
src=/tmp/seeded/$tag; wt=/tmp/wt-verify; export CARGO_TARGET_DIR=$wt/target
cd $wt || exit 2
git checkout -q -- . ; git clean -fdq -e target
git apply $src/patch.diff || { echo "VERIFY $tag: patch does not apply"; exit 2; }
suite=$(cargo nextest run --workspace --no-fail-fast --offline --test-threads 8 2>&1 | grep -E "Summary" | tail -1)
echo "VERIFY $tag suite-with-change: $suite"
if [ -n "$pkg" ]; then
  git apply $src/demo.diff 2>/dev/null || cp $src/demo_test.rs $(grep -o 'crates/[^ ]*\.rs' $src/demo.diff | head -1) 2>/dev/null
  with=$(cargo test --offline -p $pkg --test $tname 2>&1 | grep -E "^test result" | tail -1)
  git apply -R $src/patch.diff
  without=$(cargo test --offline -p $pkg --test $tname 2>&1 | grep -E "^test result" | tail -1)
  echo "VERIFY $tag demo-with-change: $with"
  echo "VERIFY $tag demo-without-change: $without"
fi
git checkout -q -- . ; git clean -fdq -e target
