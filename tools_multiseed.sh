#!/bin/bash
# usage: tools_multiseed.sh "C01 C04 ..." "0 1 2 3 4"   — runs quick checks over several seeds (no rebuild)
here="$(cd "$(dirname "$0")" && pwd)"
props="$1"; seeds="${2:-0 1 2 3 4}"; tier="${3:-quick}"
for p in $props; do for s in $seeds; do
  out=$(VERIF_SEED=$s $here/check $p --tier $tier --no-build 2>&1); rc=$?
  echo "$p seed=$s rc=$rc $(echo "$out" | grep -E "^\[$p\]" | cut -c1-160)"
  if [ $rc -ne 0 ]; then echo "$out" | grep -E "VIOLATION|INCONCLUSIVE|signature" | cut -c1-250; mkdir -p $here/logs/ms; cp $here/replays/found/$p-*.json $here/logs/ms/ 2>/dev/null; echo "$out" > $here/logs/ms/$p-seed$s.log; fi
done; done
