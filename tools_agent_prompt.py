#!/usr/bin/env python3
"""usage: tools_agent_prompt.py <PID> <tag>  — prints the prompt given to a fresh sub-agent that is asked for a
property-breaking change (nothing from /verif except the property text and the titles of earlier adversaries' changes)."""
import json, sys, os, glob
pid, tag = sys.argv[1], sys.argv[2]
prop = next(json.loads(l) for l in open('/verif/properties.jsonl') if json.loads(l)['id'] == pid)
taken = []
for d in sorted(glob.glob(f'/verif/seeded/{pid}*/meta.json')):
    m = json.load(open(d))
    taken.append('- ' + m.get('title', '?'))
wt = f'/tmp/wt-{tag}'
print(f"""You are helping to evaluate a test suite for the Rust project mimium-rs (a functional language for sound: parser, type inference, MIR, bytecode VM and WASM backends). Your job is to play the adversary: produce ONE realistic source change (the kind of slip a maintainer could make in a refactoring or "optimisation") that BREAKS the semantic property below while the project still compiles and its whole existing test suite still passes.

Work ONLY inside your own scratch git worktree {wt} (already created from the repository's HEAD). Never touch /repo or /verif, and do not read anything under /verif. The sandbox has no network; cargo must be run with --offline. Use CARGO_TARGET_DIR={wt}/target for every cargo command so that build output stays inside your worktree.

THE PROPERTY ({pid}): {prop['title']}
Statement: {prop['statement']}
Quantified over: {json.dumps(prop.get('quantifier'))}
Why the existing tests cannot settle it: {prop.get('why_tests_cant')}
Anchors in the code: {json.dumps(prop.get('anchors'))}

Requirements for the change:
1. It modifies only non-test source files of the repository (crates/...), is small (ideally < 40 changed lines), compiles without new warnings-as-errors, and looks like a plausible maintenance edit — not sabotage such as `if x == 42`.
2. With the change the whole existing suite still passes:  cd {wt} && CARGO_TARGET_DIR={wt}/target cargo nextest run --workspace --no-fail-fast --offline --test-threads 8   (358 tests pass on the unchanged tree; build takes a few minutes the first time).
3. The violation must need something SPECIFIC to manifest — a particular multi-step sequence of operations, an unusual but legal input shape, a particular interleaving, a fault at a particular point, or two cooperating sites that each look fine alone. A change that ordinary use (e.g. any of the shipped example programs) would expose at once is not wanted.
4. Earlier adversaries already used the following mechanisms for this property; choose a DIFFERENT mechanism in a different part of the code if you can:
{chr(10).join(taken) if taken else '- (none yet)'}
5. Provide a demonstration that FAILS with the change and PASSES without it: preferably a new integration test file `crates/lib/mimium-test/tests/{tag.lower()}_demo.rs` (or a unit-test file in the crate concerned) that uses the public API the way the other tests in that directory do; a small .mmm program plus the exact mimium-cli commands and expected/actual outputs is acceptable when a Rust test is impractical. Run it both ways yourself and record the outputs.

Deliverables — write them to the directory /tmp/seeded/{tag}/ (create it):
- patch.diff : `git diff` of the source change ONLY (no demonstration in it); it must apply to a clean checkout of HEAD with `git apply`.
- demo.diff  : `git diff`/new-file diff that adds the demonstration (apply on top of either tree), plus a plain copy of the test file as demo_test.rs (or demo.mmm + demo.sh for a CLI demonstration).
- meta.json  : {{"property": "{pid}", "title": "<one line: what was changed>", "what_it_needs_to_manifest": "<precisely which inputs/sequences expose it and which do not>", "files_touched": [...], "how_demonstrated": "<command lines and the observed with/without outputs>", "existing_tests": "<command and the summary line you observed with the change>"}}

When you are done, leave the worktree with the change and the demonstration applied (I will verify and remove it), and reply with a short summary: the mechanism, why the existing tests do not notice it, and what exactly is needed to trigger it. If after a serious effort you cannot find a change that meets all the requirements, say so plainly rather than delivering one that does not.""")
